#!/usr/bin/env python3
"""Run the quick tier of the given checks twice in separate processes (VERIF_SEED 1 and 2) and compare what they
covered: evaluations, distinct cases, distinct outcomes, states, transitions, samples and reported findings must be
identical (only wall time may differ).  usage: determinism.py [ids...]   exit 1 on any difference."""
import json
import os
import shutil
import subprocess
import sys

ids = sys.argv[1:] or ['C%02d' % i for i in range(1, 21)]
bad = 0
for pid in ids:
    covs = []
    ev = '/verif/evidence/%s.json' % pid
    keep = ev + '.detbak'
    if os.path.exists(ev):
        shutil.copy(ev, keep)
    for seed in ('1', '2'):
        env = dict(os.environ, VERIF_SEED=seed, PYTHONHASHSEED='0')
        r = subprocess.run(['/venv/bin/python', '-m', 'vf.run', pid, '--tier', 'quick'], cwd='/verif', env=env,
                           capture_output=True, text=True)
        d = json.load(open(ev))
        d.pop('wall_s', None)
        d.pop('seed', None)
        covs.append((r.returncode, json.dumps(d, sort_keys=True)))
    if os.path.exists(keep):
        shutil.move(keep, ev)
    same = covs[0] == covs[1]
    print('%s exit %d/%d %s' % (pid, covs[0][0], covs[1][0], 'identical' if same else 'DIFFERENT'))
    if not same:
        bad += 1
        a, b = json.loads(covs[0][1]), json.loads(covs[1][1])
        for k in a['coverage']:
            if a['coverage'][k] != b['coverage'].get(k):
                print('   differs:', k, str(a['coverage'][k])[:200], '|', str(b['coverage'].get(k))[:200])
sys.exit(1 if bad else 0)
