#!/usr/bin/env python3
"""Run a property's check against a behaviour-preserving change (the check must stay silent).

usage: confirm_benign.py <source dir with patch.diff meta.json> <PROPERTY-ID> <name> [tier] [more ids...]

In a scratch copy of /repo (outside /repo and /verif, removed afterwards):
  1. apply the patch; unit tests must be 187 passed
  2. the /verif check(s) (quick tier unless given) with VF_REPO pointing at the changed copy must exit 0
The change is kept as /verif/benign/<name>/ (patch.diff, meta.json with what was run and the outcome).
"""
import json
import os
import re
import shutil
import subprocess
import sys
import tempfile

PY = '/venv/bin/python'


def sh(cmd, cwd, env=None, timeout=7200):
    e = dict(os.environ)
    e.pop('VF_REPO', None)
    if env:
        e.update(env)
    r = subprocess.run(cmd, cwd=cwd, env=e, capture_output=True, text=True, timeout=timeout)
    return r.returncode, (r.stdout + r.stderr)


def main():
    src, pid, name = sys.argv[1], sys.argv[2], sys.argv[3]
    tier = sys.argv[4] if len(sys.argv) > 4 else 'quick'
    pids = [pid] + sys.argv[5:]
    d = tempfile.mkdtemp(prefix='benchk_%s_' % name, dir='/tmp')
    ran = []
    try:
        base = os.environ.get('BENIGN_BASE', '/repo')     # a checkout of an earlier /repo commit the patch was made against
        for sub in ('cflib', 'lpslib', 'test'):
            shutil.copytree(os.path.join(base, sub), os.path.join(d, sub), ignore=shutil.ignore_patterns('__pycache__'))
        for f in ('pyproject.toml', 'tox.ini'):
            if os.path.exists(os.path.join('/repo', f)):
                shutil.copy(os.path.join('/repo', f), d)
        rc, out = sh(['patch', '-s', '-p1', '-i', os.path.join(os.path.abspath(src), 'patch.diff')], d)
        if rc != 0:
            print('PATCH-FAILED', out[-400:])
            return 3
        rc, out = sh([PY, '-m', 'pytest', '-q', '-p', 'no:cacheprovider', 'test'], d, {'PYTHONPATH': d})
        m = re.search(r'(\d+) passed', out)
        f = re.search(r'(\d+) failed', out)
        t = (int(m.group(1)) if m else 0, int(f.group(1)) if f else 0)
        ran.append('unit tests with the change: %d passed, %d failed' % t)
        shutil.rmtree(os.path.join(d, 'test'), ignore_errors=True)
        results = {}
        for q in pids:
            ev = '/verif/evidence/%s.json' % q
            bak = None
            if os.path.exists(ev):
                bak = ev + '.benbak'
                shutil.copy(ev, bak)
            rdir = '/verif/replays/%s' % q
            rbak = None
            rc, out = sh([PY, '-m', 'vf.run', q, '--tier', tier], '/verif', {'VF_REPO': d, 'PYTHONHASHSEED': '0'})
            if bak:
                shutil.move(bak, ev)
            sigs = re.findall(r'signature: (.*)', out)
            results[q] = {'exit': rc, 'signatures': sigs[:8]}
            ran.append('%s %s tier against the changed copy: exit %d; signatures: %s' % (q, tier, rc, '; '.join(sigs[:6]) or '-'))
            print('CHECK %s/%s on %s -> exit %d  %s' % (q, tier, name, rc, ' | '.join(sigs[:4])))
            if rc == 2:
                print(out[-1500:])
        ok = t == (187, 0)
        print('BENIGN %s: tests %r : %s' % (name, t, 'silent' if all(r['exit'] == 0 for r in results.values()) else 'ALARM'))
        if ok:
            dst = os.path.join('/verif/benign', name)
            os.makedirs(dst, exist_ok=True)
            shutil.copy(os.path.join(src, 'patch.diff'), dst)
            meta = {}
            try:
                with open(os.path.join(src, 'meta.json')) as fh:
                    meta = json.load(fh)
            except Exception:
                pass
            meta['property'] = pid
            meta['run_by_lead'] = ran
            meta['checks'] = results
            with open(os.path.join(dst, 'meta.json'), 'w') as fh:
                json.dump(meta, fh, indent=1)
        return 0
    finally:
        shutil.rmtree(d, ignore_errors=True)


if __name__ == '__main__':
    sys.exit(main())
