#!/bin/bash
# usage: tools/run_mutants.sh [ID-prefix...]   — run every patch in mutants/ (and seeded/*/patch.diff) against the quick tier of the
# property it is named after; prints one line per patch and a summary of the ones that did not apply or were not caught
cd "$(dirname "$0")/.."
pats=("$@"); [ ${#pats[@]} -eq 0 ] && pats=("C")
miss=0; fail=0; n=0
for f in mutants/*.diff seeded/*/patch.diff; do
  case "$f" in mutants/*) b=$(basename "$f");; *) b=$(basename "$(dirname "$f")");; esac
  id=${b:0:3}
  ok=0; for p in "${pats[@]}"; do case "$b" in $p*) ok=1;; esac; done; [ $ok = 1 ] || continue
  out=$(MUT_LINES=2 tools/mutant.sh "$f" "$id" quick 2>&1)
  n=$((n+1))
  if echo "$out" | grep -q PATCH-FAILED; then echo "NOAPPLY $b"; fail=$((fail+1));
  elif echo "$out" | grep -q "exit 1$"; then echo "caught  $b  $(echo "$out" | grep -m1 signature | cut -c1-110)";
  else echo "MISSED  $b  $(echo "$out" | tail -1)"; miss=$((miss+1)); fi
done
echo "SUMMARY patches=$n not_applicable=$fail missed=$miss"
exit 0
