#!/usr/bin/env python3
"""Confirm a seeded change and run the property's check against it.

usage: confirm_seed.py <source dir with patch.diff demo.py meta.json> <PROPERTY-ID> <name> [tier]

In a scratch copy of /repo (outside /repo and /verif, removed afterwards):
  1. unit tests on the unchanged copy  -> must be 187 passed
  2. demo on the unchanged copy        -> must pass (exit 0)
  3. apply patch; unit tests           -> must be 187 passed
  4. demo with the change              -> must fail (exit != 0)
  5. the /verif check (quick tier unless given) with VF_REPO pointing at the changed copy
The change is kept as /verif/seeded/<name>/ (patch.diff, demo.py, meta.json with what was run) only if 1-4 hold.
"""
import json
import os
import re
import shutil
import subprocess
import sys
import tempfile

PY = '/venv/bin/python'


def sh(cmd, cwd, env=None, timeout=3600):
    e = dict(os.environ)
    e.pop('VF_REPO', None)
    if env:
        e.update(env)
    r = subprocess.run(cmd, cwd=cwd, env=e, capture_output=True, text=True, timeout=timeout)
    return r.returncode, (r.stdout + r.stderr)


def main():
    src, pid, name = sys.argv[1], sys.argv[2], sys.argv[3]
    tier = sys.argv[4] if len(sys.argv) > 4 else 'quick'
    d = tempfile.mkdtemp(prefix='seedchk_%s_' % name, dir='/tmp')
    ran = []
    try:
        base = os.environ.get('SEED_BASE', '/repo')     # a checkout of the /repo commit the patch was made against
        for sub in ('cflib', 'lpslib', 'test'):
            shutil.copytree(os.path.join(base, sub), os.path.join(d, sub), ignore=shutil.ignore_patterns('__pycache__'))
        for f in ('pyproject.toml', 'tox.ini'):
            if os.path.exists(os.path.join('/repo', f)):
                shutil.copy(os.path.join('/repo', f), d)
        os.makedirs(os.path.join(d, 'seed_out', '1'))
        demo = os.path.join(d, 'seed_out', '1', 'demo.py')
        shutil.copy(os.path.join(src, 'demo.py'), demo)
        env = {'PYTHONPATH': d, 'CFLIB_ROOT': d}

        def tests():
            rc, out = sh([PY, '-m', 'pytest', '-q', '-p', 'no:cacheprovider', 'test'], d, env)
            m = re.search(r'(\d+) passed', out)
            failed = re.search(r'(\d+) failed', out)
            return (int(m.group(1)) if m else 0, int(failed.group(1)) if failed else 0)

        def rundemo():
            cmd = [PY, demo]
            with open(demo) as fh:
                txt = fh.read()
            if 'def test_' in txt and '__main__' not in txt:
                cmd = [PY, '-m', 'pytest', '-q', '-p', 'no:cacheprovider', demo]
            rc, out = sh(cmd, d, env, timeout=600)
            return rc, out[-600:]

        t0 = tests()
        ran.append('unit tests on the unchanged copy: %d passed, %d failed' % t0)
        rc0, o0 = rundemo()
        ran.append('demo on the unchanged copy: exit %d' % rc0)
        rc, out = sh(['patch', '-s', '-p1', '-i', os.path.join(os.path.abspath(src), 'patch.diff')], d)
        if rc != 0:
            print('PATCH-FAILED', out[-400:])
            ran.append('patch did not apply to the current /repo: ' + out[-200:])
            print(json.dumps(ran, indent=1))
            return 3
        t1 = tests()
        ran.append('unit tests with the change: %d passed, %d failed' % t1)
        rc1, o1 = rundemo()
        ran.append('demo with the change: exit %d' % rc1)
        ok = t0 == (187, 0) and t1 == (187, 0) and rc0 == 0 and rc1 != 0
        print('CONFIRM %s: tests %r -> %r, demo exit %d -> %d : %s' % (name, t0, t1, rc0, rc1, 'OK' if ok else 'NOT CONFIRMED'))
        if not ok:
            print(o0[-300:], '\n---\n', o1[-300:])
        # run the check
        for sub in ('test', 'seed_out'):
            shutil.rmtree(os.path.join(d, sub), ignore_errors=True)
        ev = '/verif/evidence/%s.json' % pid
        bak = None
        if os.path.exists(ev):
            bak = ev + '.seedbak'
            shutil.copy(ev, bak)
        rc, out = sh([PY, '-m', 'vf.run', pid, '--tier', tier], '/verif', {'VF_REPO': d, 'PYTHONHASHSEED': '0'})
        if bak:
            shutil.move(bak, ev)
        sigs = re.findall(r'signature: (.*)', out)
        last = [l for l in out.splitlines() if l.startswith(pid)][-1:] or out.splitlines()[-3:]
        ran.append('%s %s tier against the changed copy: exit %d; signatures: %s' % (pid, tier, rc, '; '.join(sigs[:6]) or '-'))
        print('CHECK %s/%s on %s -> exit %d  %s' % (pid, tier, name, rc, ' | '.join(sigs[:4])))
        print('   ', ' '.join(last)[:200])
        if ok:
            dst = os.path.join('/verif/seeded', name)
            os.makedirs(dst, exist_ok=True)
            shutil.copy(os.path.join(src, 'patch.diff'), dst)
            shutil.copy(os.path.join(src, 'demo.py'), dst)
            meta = {}
            try:
                with open(os.path.join(src, 'meta.json')) as fh:
                    meta = json.load(fh)
            except Exception:
                pass
            meta['property'] = pid
            meta['confirmed_by_lead'] = ran
            meta['detected_by_check'] = {'tier': tier, 'exit': rc, 'signatures': sigs[:8]}
            with open(os.path.join(dst, 'meta.json'), 'w') as fh:
                json.dump(meta, fh, indent=1)
        return 0
    finally:
        shutil.rmtree(d, ignore_errors=True)


if __name__ == '__main__':
    sys.exit(main())
