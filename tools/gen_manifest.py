#!/usr/bin/env python3
"""Generate /verif/MANIFEST.json from the table below (single source of truth)."""
import json
import os

VERIF = os.path.dirname(os.path.dirname(os.path.abspath(__file__)))
PY = 'PYTHONHASHSEED=0 /venv/bin/python -m vf.run'
BASELINE = ('cd /repo && /venv/bin/python -m pytest -ra -q -p no:cacheprovider --timeout=900 '
            '--continue-on-collection-errors')

# id -> (level, technique, text, note, design_ref, engine)
CHECKS = {
 'C13': ('exploration',
         'exhaustive enumeration of finite input spaces against an independent reference',
         'Also: quaternion norms between one and two quantisation steps from 1 (1.0015, 1.0019, 1.003 and their mirrors). All 65 536 half-float patterns (directly and through every sensor slot of the lighthouse '
         'angle-stream decoder), every integer wire unit and half step across and beyond the int16 range for '
         'compressed-trajectory coordinates/yaw, all 256x101 colour/intensity pairs and all anchor counts are '
         'enumerated completely; the quaternion codec is enumerated over a stated lattice only.',
         'reference = numpy.float16 / struct / arithmetic re-derived in the check; quaternions only on the lattice',
         'DESIGN.md §3 C13', 'enumeration'),

 'C07': ('model_checking',
         'explicit enumeration of all registration tables / mutation scripts / packet sequences up to a bound on the real dispatcher, against a reference table model',
         'Also: every registration made and removed through the public Crazyflie entry points (explicit, keyword, zero and defaulted masks; port callbacks).  Part D (threads): the real dispatcher thread and a user thread under the controlled scheduler, a scheduling point at every line of the dispatcher class, 12 configurations (user adds / removes a registration while a callback removes itself / adds / removes / does nothing), every vector of <= 2 (thorough 3) deviations. The real _IncomingPacketHandler.run() is executed for all 256 headers x 1088 registrations and for every '
         'registration list up to length 3 (quick) / 4 (thorough) in which each callback performs one scripted table '
         'mutation or raises, over 4 packet sequences; every execution is compared with an independent reference '
         'model of the table (exactly-once, table order, no non-matching delivery, survival after raise, removal '
         'affects only that registration); cf.link being cleared by another thread at every read position is '
         'enumerated too. Bounded (list length, 2 packets), complete below the bound.',
         'independent matcher written from the API documentation; callbacks added during the dispatch of p may or '
         'may not see p, ones removed before their turn may or may not see p (statement silent)',
         'DESIGN.md §3 C07', 'E2'),
 'C03': ('exploration',
         'stateless deviation-bounded exploration (reply faults x thread schedules) of the real connect sequence against a simulated device',
         'Wave 14: eight configurations put a complete session of the same Crazyflie object with ANOTHER device (other protocol generation / no versioning / other tables, with and without cache) in front; first-generation SimCF ignores 16-bit TOC commands. A real Crazyflie object downloads the tables from a simulated device (SimCF) through a simulated link under a '
         'controlled scheduler with virtual time. 40 small configurations (both TOC generations, no-versioning device, '
         'sizes 0..3, every type code, name-length extremes, ISO-8859-1 names, lossy and reliable links, rw/ro cache) are '
         'explored with every single deviation (quick) / every pair of deviations on six of them (thorough) among: '
         'duplicate a reply, delay it past the retry timer (stale reply to an earlier request), drop it, pick another '
         'runnable thread at any synchronisation point (default, eager-start and hand-off default schedules); tables of 255..600 entries (also with the 1-byte index of protocol 4) are explored with one reply fault at '
         'the structurally interesting indices (first, 254..257, last). At connected, both tables must equal the '
         'device tables field by field and the four lookup functions must agree.',
         'SimCF is my reading of the TOC wire protocol; faults on link-control/platform requests (which have no retry) '
         'exclude loss; a thread that is slow by itself for longer than a retry period is not modelled',
         'DESIGN.md §3 C03', 'E3'),
 'C02': ('exploration',
         'stateless deviation-bounded exploration of thread schedules and fault/close times of the real connection code under a controlled scheduler',
         'Wave 13: four configurations put a complete fault-free session of the same object in front of the explored attempt. Also: the unsolicited value notification about the parameter that is read first. Also: the link is lost (or the user closes) at every line of the traced functions with the interrupted thread held back until the error path has run to its end (scheduling policy env_first, one deviation). The real Crazyflie / SyncCrazyflie objects connect to a simulated device while a controlled scheduler owns every '
         'thread switch and the clock. 14 configurations (Crazyflie / SyncCrazyflie, protocol 3 / 10, hello packet, unsolicited value update during the download, immediate retry of a failed blocking open, default / eager-start / hand-off default schedule). Explored exhaustively: every single deviation (quick) among link error from the '
         'driver thread at any scheduling point, link error raised inside send_packet at any transmission, user close_link '
         'at any point, any other runnable thread at any synchronisation point - and, in two line-level configurations, '
         'at every line of 17 functions with unsynchronised check-then-act on shared attributes; thorough adds every pair '
         'of deviations on two minimal configurations. Each execution is followed by a settle period and a fault-free '
         'second session on the same object. Oracle: callback grammar and counts of the statement, no deadlock / hang / '
         'dead thread, DISCONNECTED reached, second session fully connects with the device values.',
         'SimLink mirrors RadioDriver (error callback from its own thread or inside send_packet, close() clears the '
         'callback); virtual time makes a running thread infinitely fast relative to timers at other instants; the '
         'genuine defects not repaired (dispatcher not excluded from teardown, and its consequences) are listed in known_findings.json',
         'DESIGN.md §3 C02', 'E3'),
 'C14': ('exploration',
         'exhaustive enumeration of field alphabets and of every single-byte corruption against independent reference codecs',
         'Also: lighthouse geometry given as numpy arrays and tuples (memory layout), deck names followed by 0xFF filler behind the terminator. Also: a non-black colour stored as black in a zero-time LED step; deck records with undecodable name bytes next to well-formed ones. Every image family the library writes or parses is driven on the real element classes through a byte-array device '
         'memory (YAML managers through a temp directory) over complete cross products of stated finite alphabets (EEPROM: '
         'both versions x 4 channels x 3 speeds x 81 float32 trim pairs x 7 addresses; 1-wire: every single-element length '
         '0..253 per id, ordered id pairs x lengths 0..30^2, triples, 45 header combinations; lighthouse: 16 base stations x '
         'valid flag x float32 extremes in every slot, every subset of <=2/<=4 of 16 stations through helper and file '
         'manager; persistent-parameter states; Poly4D/compressed/LED-timing layouts; all 128x4 deck bit-field combinations; '
         '0..16 anchors). Corruption: every byte position of 32 EEPROM and 107/203 1-wire base images x XOR masks (8 '
         'single-bit quick, all 255 thorough). Each case is compared with independent struct/zlib reference codecs for '
         'layout, round-trip equality and the recomputed checksum/CRC verdict.',
         'firmware layouts as transcribed in vf/c14_dev.py; PyYAML as independent reader/writer; ByteMem model of Memory '
         'delivery cross-checked against the real Memory class; floats are extremes plus position-identifying values, not all '
         'floats',
         'DESIGN.md §3 C14', 'enumeration'),
 'C10': ('exploration',
         'stateless deviation-bounded exploration of loss/delay patterns, close/reopen times and timer-vs-dispatcher orders on the real retry code in virtual time',
         'Waves 13-14: requests left unanswered by a closed / lost session vs prefix-sharing patterns of the next session; next session over a link of the other kind; reconnect + request from inside the disconnected callback. Also: a packet counts as received when the library takes it from the link (the reference does not depend on where the library calls its matcher); a handler that sends the next request with the same pattern from the dispatcher thread. Also: two requests awaiting the same reply pattern, the same pattern awaited again in the next session (close exactly at the second retry instant: virtual instants are compared on a 1 ns grid), a request registered while a matching packet is being matched is not judged. Also: a focused line-level search (any first deviation + 1-2 switches at the lines of the retry machinery) and the two-deviation exploration of a second user sending across close/re-open. The real Crazyflie.send_packet / retry timers / dispatcher run against a silent simulated device under the '
         'controlled scheduler. 22 scenarios (a second user thread sending across close/re-open, hand-off default schedule, single request with 0.2 s and 1 s timeout, prefix-sharing patterns in both '
         'issue orders, unsolicited packet matching several pending patterns, close, close+reopen inside and at the retry '
         'instant, reliable link) are explored with every single deviation and (3 scenarios quick / all thorough) every '
         'pair of deviations among: the reply to each transmission in {lost, +0, +0.1, +0.2 (tie), +0.3, +0.5 s}, the '
         'unsolicited packet and user close/reopen at any scheduling point, thread order at equal instants. The virtually '
         'time-stamped transmission log is compared with a reference model of the pending set: retransmission exactly every '
         'timeout while open and unanswered, none after the answer, longest-prefix cancellation only, single transmission on '
         'reliable links, nothing on a closed link, nothing of session 1 in session 2.',
         'a retransmission whose sender entered the send section before the answer was processed, or exactly at the '
         'instant the obligation ends, is tolerated; virtual-time limit as in C02',
         'DESIGN.md §3 C10', 'E3'),
 'C20': ('exploration',
         'exhaustive enumeration of the URI grammar product and of driver lists against an independent parser',
         'Wave 14: for every fifth connected URI a scan_interface() by another driver object while the link is open (shared dongle must be retuned). Also: init_drivers() called again with the serial driver switched on. Library calls that start threads run under a 60 s real-time bound (a tree on which close()/connect() never returns yields VIOLATION hang:*, not a hanging check). Also: every ordered pair of dongle plug states for serial-number ids (parse, replug, parse again) and the serial driver enabled without pyserial. Every URI of the radio grammar product (11 dongle ids incl. case-varied and all-digit serials, channels 0..125, 3 '
         'rates, 363 address strings of every length 1..10 in three letter cases, 4 omitted-field shapes, 8 query strings) '
         'goes through the real RadioDriver.parse_uri and a stated subset through get_link_driver onto a scripted USB dongle '
         '(settings in force at each transmission are observed); scan_interface for 13 addresses over scripted populations; '
         'every sample URI of 6 schemes and 44 unknown/malformed URIs against every driver class in 4 driver lists; bounded '
         'sequences of failing open_link calls on one Crazyflie object followed by a valid one.',
         'finite address alphabet, not all 16^10 strings; scripted USB dongle model; "claims a URI" = connect() does not '
         'raise WrongUriType; malformed limited to the classes the statement names',
         'DESIGN.md §3 C20', 'enumeration'),
 'C06': ('exploration',
         'exhaustive input enumeration plus stateless deviation-bounded exploration of reply faults, link loss and schedules on the real Memory subsystem',
         'Wave 13: part C - 48 chains: a read / write of the same or another memory started from inside the success or failure notification of a read / write. Also: the user overwrites or empties its data buffer as soon as write() has returned; another Crazyflie object is constructed at any point during a transfer. Also: the link is lost at every line of the user\'s call and of the handlers with the interrupted thread held back until the error path has finished (policy env_first); the fault thread is parked before the first request. Also: four long transfers (2500-5100 bytes), focused line-level searches (one reply fault / link loss / second-user request + 1-2 thread switches at the lines of the memory subsystem), link lost at any point followed by a second user\'s request within 30 points, two user threads at line level. Part A drives every (memory id in {0,1,255}) x (7 start addresses incl. chunk boundaries and the top of the 32-bit '
         'space) x (read lengths 0..61, write lengths 0..76, with and without progress callback) through the real Memory '
         'class against a sparse device image: returned bytes, final image, request/chunk tiling (<= 20 / <= 25 bytes, '
         'ascending, once), exactly one notification, no lock or record left. Part B explores 25 operation sequences (1-3 '
         'reads / writes / flushing writes on 1-2 memories, lengths 0/1/20/21/26/45) with every single deviation (quick) / '
         'every pair on 8 sequences (thorough) among: reply duplicated, delayed past the 1 s retry, dropped; device error '
         'status on any request; link loss from the driver thread at any point or inside any send; thread order. Each '
         'execution ends with a probe read and write per memory, after reconnecting when the link was lost.',
         'SimCF memory-port model is the reference; requests issued while the link is already down are not exercised; a '
         'read overlapping a concurrent write is only checked on untouched bytes; one genuine defect is a known finding',
         'DESIGN.md §3 C06', 'E3'),
 'C08': ('exploration',
         'exhaustive enumeration of argument alphabets, protocol versions and headers against an independent reference decoder',
         'Also: vector arguments given as float64 arrays and passed three times (arrays unchanged, every packet decodes alike). Also: every ordered pair (thorough: every ordered triple of the Commander/HighLevelCommander commands) of the 31 commands issued one after the other on one Crazyflie object - each judged as if issued alone, and a packet object already handed to the link must not be rewritten by a later command. Every public command encoder of Commander, HighLevelCommander, Localization, Extpos, PlatformService and '
         'LoPoAnchor is executed on the real Crazyflie object with a recording link behind the real send_packet size check: '
         'one-argument-at-a-time over full float/fixed-point/integer alphabets (incl. float32 overflow threshold, +-inf, '
         'nan, int16 borders), full cross products over reduced alphabets, all argument pairs, protocol versions on both '
         'sides of each switch (thorough: every version -1..255 and full float cross products), X-mode never-set/off/on, '
         'and all 16x4 headers through every construction route from every previous state. Every emitted packet is decoded '
         'by an independent reference table; unrepresentable arguments must raise without a packet.',
         'reference table = my transcription of the firmware packet layouts (port, channel, type byte, struct, scale, sign, '
         'version switches); numpy.float32 as rounding reference; documented clamps accepted; physical units not judged',
         'DESIGN.md §3 C08', 'enumeration'),
 'C04': ('exploration',
         'exhaustive input enumeration plus stateless deviation-bounded exploration of user-thread schedules and reply delays on the real parameter code',
         'Wave 14: part C - set / read of a parameter issued from inside the fully_connected, all_updated and parameter-update notifications. Also: two observers of every kind (parameter, group, all) are registered and each must be told exactly once. Part A: all 10 firmware parameter types x both id widths (protocol 10 / 3) x a value alphabet (type min/max, one '
         'beyond, -1, 0, 1, 2, 2^64, decimal strings; float specials and overflow) through the real set_value / '
         'request_param_update: exact wire bytes, refusal without any transmission, cache, get_value and each of the three '
         'callback kinds exactly once with str(device value). Part B: 25 configurations of 13 thread sets (2-3 user threads issuing set / read / '
         'persistent store / clear / get_state / get_default on 3 parameters of equal width) explored with every single '
         'deviation (quick) / every pair (thorough) among reply delayed past the retry timer, unsolicited value-changed '
         'packet at any point or already in flight when the requests are issued, and any other runnable thread at any synchronisation point: wire order equals queue order, '
         'no request is sent before the previous one was answered, every callback fires exactly once with the answer the '
         'reference device model gives for that very request, caches equal the device, nothing left blocked.',
         'SimCF parameter-port model; not demanded: non-integral values for integer types, default 2 of a 1-byte parameter '
         '(protocol ambiguity), a duplicate reply answering the next request for the same parameter',
         'DESIGN.md §3 C04', 'E3'),
 'C05': ('model_checking',
         'exhaustive enumeration of variable lists/periods/values plus explicit-state BFS of the log-block life cycle on the real code, plus schedule exploration of SyncLogger',
         'Wave 14: every reconnect of the life-cycle model presents another table order and checksum; each create request is decoded against the connected device\'s table. Also: raw-memory variables whose stored and fetched types differ in size on both sides of the 26-byte limit; decode of a block without variables. Also: packet objects handed to the link must still read the same after the later messages of a block creation; decoded samples are held and compared after later packets. Thread-free harness (real Crazyflie + real dispatcher loop pumped synchronously + SimCF): 123 variable lists '
         '(every stored x fetch type, default fetch, 0..27 one-byte variables, payloads 24..28 bytes, ids above 255, a '
         'missing name at each position, raw-memory variables) x periods on both sides of each limit: acceptance rule, '
         'nothing sent when rejected, create/append messages decoded by the device model (same variables, once, in order, '
         '<= 30 bytes, create then appends), flags and start message after the acknowledgements, and data packets with '
         'extreme values per fetch type and 24-bit timestamps. Life cycle: breadth-first search to depth 4 (quick) / 6 '
         '(thorough) over add / start / stop / delete / ack with status 0, EEXIST, ENOENT, ENOMEM / duplicate ack / '
         'reconnect, states de-duplicated on the full implementation + device + model state, invariants: flags and '
         'state-change callbacks equal the acknowledgement model, start sent on create-ack, variable list unchanged by '
         're-adding. SyncLogger: consumer thread vs dispatcher vs close/link-fault under the controlled scheduler (every '
         'single deviation; pairs in thorough): yields a prefix of the samples once each in order and terminates.',
         'SimCF create/append decode rule and raw-memory record format are my reading of the firmware; only the fetch '
         'nibble is checked for table variables; notifications of refused create/start (other argument shapes) are not judged',
         'DESIGN.md §3 C05', 'E2'),
 'C11': ('fault_enumeration',
         'exhaustive enumeration of crash points (every prefix of the cache file) and of cache-directory/checksum configurations on the real cache and connect code',
         'Also: log/param checksum collision with tables of equal size as well as of different sizes. Fetch level: for log and parameter tables with 0, 1, 3 and 40 entries (plain and extended) every prefix length of '
         'the cache file the library itself wrote is put in place and TocCache.fetch must return None or a table equal '
         'entry for entry; 8 kinds of unparsable entries (garbage, non-UTF-8, other JSON shapes, foreign __class__, '
         'directory) and 39 neighbouring checksums. Connect level: a real Crazyflie connects to SimCF with the rw cache '
         'file cut at every byte (1- and 3-entry tables; stride in quick) or at a stride plus both ends (40 entries): '
         'connected exactly once with the device tables, the truncated file is downloaded and rewritten whole, a complete '
         'file is used without any element request; 8 read-only/read-write directory combinations with a content hash of '
         'the read-only tree; log/param checksum collision in 3 storing orders x 2 sessions.',
         'crash model = prefix of the intended content (open/write/close, no rename); SimCF announces the checksums',
         'DESIGN.md §3 C11', 'E3'),
 'C15': ('exploration',
         'exhaustive enumeration of a stated finite grid of directions/poses against references written in the check',
         'Also: decks beside and behind the base station for the solver projection. Also: views of the 24 exact cube rotations, their 576 products and exact quaternions whose scalar part is exactly zero; every sequence of up to 3 (thorough 4) uses of one Pose object out of {forward, inverse, compose, inverse-compose, views, scale x2, scale x0.5, copy.copy} with the rigid-motion laws re-checked after every step. Complete over a stated finite grid: all V1 directions of a +-80 x +-55 degree grid (5 degree steps quick, 1 degree '
         'thorough) including +-1e-9/1e-6/1e-3 rad, a V2 grid, a rotation x translation lattice (identity, quarter and '
         'half turns, tiny and near-pi rotations, generic literals) with all ordered pose pairs and all triples of a fixed '
         'sub-set, and every lattice combination of base-station pose, deck position, Crazyflie rotation and sensor for '
         'the solver\'s vectorised projection (incl. zero rotation), plus IPPE on exact projections. Each is run on the '
         'real code and compared with Rodrigues/4x4/atan2 references written in the check.',
         'continuous domain: nothing off the grid is claimed; tolerances are float32-level (1e-5 rad, relative below 1 rad) '
         'for angle paths and 1e-9 for double-precision laws with measured margins >= 10x in the evidence; IPPE true-pose '
         'clause excludes edge-on and knife-edge decks',
         'DESIGN.md §3 C15', 'enumeration'),
 'C16': ('exploration',
         'exhaustive enumeration of a stated finite grid of misalignments/layouts/scale factors against 4x4-matrix references',
         'Also: aligner samples passed as 2-D float arrays (must not be modified). Complete over a stated finite grid: 17 856 (thorough 97 776) generating misalignments below 30 degrees and 3 m, '
         'alone and composed with half turns about X, Y, Z, x 12 reference layouts (1 or 3 x-axis points, 1/2/4 plane '
         'points, exact or +-1 mm) x 3 constellations, plus large rotations for the rigid-motion clauses only; all grid '
         'combinations of both scaling entry points over 4 (8) factors; the deck-diagonal constant. Real aligner and scaler '
         'compared with 4x4-matrix and ray/plane references, with deep input snapshots.',
         'continuous domain: only the grid is claimed; below 30 degrees read literally for optimiser-precision placement '
         '(1e-4 m), flipped situations placed to 1 mm; scipy optimiser trusted as a black box',
         'DESIGN.md §3 C16', 'enumeration'),
 'C18': ('model_checking',
         'bounded exhaustive exploration of stream fragmentations, packet sequences and router/receiver interleavings on the real CPX code',
         'Also: makeTransaction on a function that already has packets queued (nothing lost, order kept, one request on the wire). Also: the caller\'s CRTP packet is unchanged by send_packet and sending the same object again puts the same bytes on the wire (TCP and UART). Also: every interleaving of the socket send calls of 2 and 3 application threads (whole frames must result), and delivery of packets behind a rejected one. Complete codec alphabet (4x4x7x2 headers x payload lengths 0-64 and boundary lengths, all 65 536 header byte pairs '
         'against an independent reference); every stream of 1-4 packets up to 14 (quick) / 18 (thorough) bytes under all '
         '2^(n-1) recv fragmentations through the real SocketTransport.readPacket, long frames under all single cuts and all '
         'compositions of the leading bytes; all packet sequences of length <= 4/5 over three functions plus a bad-version '
         'packet under every interleaving of CPXRouter.run iterations with a bounded number of receivePacket calls; all 256 '
         'CRTP headers x payload 0-30 in both directions through TcpDriver and SerialDriver.',
         'reference wire formats written in the check (little-endian host); run() bodies are executed synchronously and '
         'interleaved at whole-call granularity; pyserial is absent so the serial driver runs against a fake serial.Serial; '
         'packets arriving before a function\'s first receivePacket are not required to be delivered',
         'DESIGN.md §3 C18', 'E2'),
 'C19': ('exploration',
         'stateless deviation-bounded exploration of per-member thread interleavings of the real Swarm code, over all sizes/failing subsets/argument dictionaries',
         'Wave 14: histories on one Swarm of two - 324 pairs and 216 triples of actions, 36 nested swarm-wide actions started from inside an action, up to one deviation. Also: URIs given as a list changed after construction, as a generator and with a duplicate; other Swarm objects created before and after the one under test (their members must never be used). The real Swarm runs with instrumented members from its factory argument; the threads started by parallel_safe run '
         'under the controlled scheduler with scheduling points at every line of the Swarm methods and inside the member '
         'operations. Enumerated completely: sizes 1..3 (thorough 4) x every failing subset x {sequential, parallel, '
         'parallel_safe, open_links, open_links twice} x three kinds of argument dictionary, each with every schedule of at '
         'most 2 deviations (n<=2) / 1 (n=3) in quick and one more in thorough. Oracle: each action exactly once with (scf, '
         '*args_dict[uri]); sequential in URI order without overlap; parallel_safe returns after all actions finished, '
         'raises iff one raised with one of the raised errors as __cause__; parallel never raises; failed open closes every '
         'member after all attempts ended, raises, leaves the swarm closed and re-openable; second open refused.',
         'members are stand-ins (the statement is about Swarm); argument dictionaries lacking a member entry are outside the statement',
         'DESIGN.md §3 C19', 'E3'),
 'C17': ('exploration',
         'exhaustive enumeration of motion programs up to a length bound with deviation-bounded exploration of setpoint-thread schedules in virtual time',
         'Also: the same vertical velocity commanded again later. Also: two commanders in the air at the same time (each stream judged on its own); a link that is busy for 0.5 s inside one setpoint transmission. Also: two complete flights (take_off, program, land, take_off, program, land) on one helper object for programs of length <= 1 (thorough 2), each flight judged on its own, the second from where the first ended; velocity commands without any streamed setpoint are a violation. The real MotionCommander (with its setpoint thread) and PositionHlCommander run on a recording Crazyflie stub under '
         'the controlled scheduler with virtual time. Every program of up to 2 (thorough 3) primitives from an alphabet of 26 '
         'MotionCommander and 15 PositionHlCommander primitives (all directions, distances, velocities, turns, circles, '
         'start_*/stop, go_to, default and landing-height changes), in context-manager and explicit form, with an exception '
         'raised at every position of the body, is explored with every schedule of at most 2 (thorough 3; length-3 programs '
         '1) deviations. Oracle on the time-stamped command log: ends with stop (then setpoint-priority release) and '
         'nothing afterwards, the body\'s exception is the one that propagates, hover setpoints at most one period apart '
         'carrying the commanded velocities and the integrated height, velocity x duration = requested displacement / '
         'angle / arc in the documented direction, reported position = start + sum of displacements, go-to target and '
         'duration = distance / velocity.',
         'recording stub in place of Crazyflie; directions as documented (+x forward, +y left, +z up, positive yaw rate = '
         'left); the (up to one period stale) height used for landing is not judged',
         'DESIGN.md §3 C17', 'E3'),
 'C12': ('exploration',
         'exhaustive enumeration of flash geometries, image lengths and flash-write reply patterns on the real bootloader code against a simulated target',
         'Also: flash() of a release that replaces the nRF51 bootloader + soft device (the simulated bootloader restarts with another start page), whole flash compared with the exact expected layout; the fake link keeps the packet object until the next link call (as the radio driver\'s queue does). The real Bootloader.start_bootloader/_internal_flash/flash and Cloader._update_info/upload_buffer/write_flash run '
         'against a simulated two-target bootloader device for every combination of page size {16,25,26,50,64; thorough 11 '
         'sizes plus 256/1024}, buffer pages {1,2,3,10(,4)}, flash pages {4,8,128}, start page {0,1,3}, override page '
         '{none,2; thorough also at the flash end}, target {stm32,nrf51} and every image length from 1 to '
         '2*buffer_pages*page_size+2 plus capacity-1/capacity/capacity+1. For boundary lengths every pattern of per-attempt '
         'flash-write answers over {ok, negative, command lost, reply lost, 5 kinds of stale packet first} with at most 2 '
         'deviations is executed, and all reachable patterns without bound for geometries needing 1, 2, 3 (thorough 4) '
         'flash-writes; the public flash() path runs via .bin and two-target .zip files. Judged from the packet log and '
         'final flash arrays: exact image placement, nothing outside the image page range or beyond flash, refusal before '
         'any packet, <= 31-byte frames, exactly-once byte coverage at the right buffer offset, bounded retries, abort '
         'without further packets.',
         'simulated device = my reading of the bootloader protocol; virtual clock; replies delayed past the timeout into a '
         'later command are not modelled; bounded = at most 8 sends of one command; last-page bytes beyond the image end not judged',
         'DESIGN.md §3 C12', 'E1'),
 'C09': ('exploration',
         'exhaustive enumeration of a stated finite lattice of rooms on the real matcher/estimator/solver pipeline against ground truth from an independent projector',
         'Also: the matcher with an explicit window argument (0, 5, 20, 90 ms) on hand-made time patterns. Also: 40 (thorough 400) rooms solved after an estimate() call on a corrupt recording with the same station ids failed half-way. The real LighthouseSampleMatcher.match -> LighthouseInitialEstimator.estimate -> LighthouseGeometrySolver.solve '
         'pipeline is executed on every room of a finite lattice (4 224 rooms quick, 33 444 thorough): 2-6 base stations on 8 '
         'asymmetric corner/wall spots at 1.5/2.5/4 m with non-axis-aligned aim offsets; 4 id assignments up to id 15; 5 '
         'linkable visibility graphs and all two-component / isolated-station / single-station unlinkable systems; '
         'Crazyflie walks through a 4x4x4 position lattice with 5 yaws and small tilt; 3/5/10/40 poses; every rotation and '
         'reversal and all permutations of 3 samples; 7 time-stamp patterns around the 20 ms matcher window; 3 station '
         'orders inside a sample. Measurements come from an independent pin-hole projector; the result is compared with the '
         'generating truth in the frame of the first sample at the property\'s own 1 mm / 1 mrad; unlinkable systems must '
         'raise. Largest error over all rooms 9.0e-5 m / 1.8e-5 rad.',
         'continuous domain: nothing is claimed off the lattice; error-free doubles, no lens/calibration model; any '
         'exception type counts as rejection; exactly-20 ms stamp differences are not generated; a 30 s per-room alarm '
         'turns hangs into violations',
         'DESIGN.md §3 C09', 'enumeration'),
 'C01': ('model_checking',
         'explicit-state breadth-first search with state de-duplication to a fixpoint over the real radio driver loop against an alternating-bit peer model',
         'Histories continue through a first reported outage into a second one (the count restarts at an acknowledgement; end after outage 2 is reported or one transmission after a reported outage goes on); radio threads of the pause/restart part are stopped through stop(). The application may also submit its next packet while a frame is in the air; the packet alphabets contain a header-only uplink packet and a port-15/channel-3 downlink packet with data; the dongle answers with both spellings of ack / no-ack status bytes; a second driver thread is started on a radio whose previous thread confirmed safelink. Explicit-state model checking of the real _RadioDriverThread.run, _send_packet_safe, RadioDriver.send_packet / '
         'receive_packet and Crazyradio.send_packet (scripted USB endpoint): the environment is a non-deterministic lossy '
         'channel ({uplink lost, delivered+acked, delivered with ack lost} per transmission, 10 start-up reply kinds), an '
         'alternating-bit safelink peer and an application submitting or idling at every loop. BFS over all choice histories '
         'with de-duplication on the full state (thread attributes + live locals of the run() frame + peer + monitors) '
         'reaches a fixpoint (frontier empty at depth 41-43) for N=2 (quick) and N in {1,2,3,5} x rate_limit {None,100} '
         '(thorough, 222 276 states). Exactly-once/in-order, link-error-count, safelink-confirmation and header-bit clauses '
         'are evaluated in every state; an independent de-duplication-free enumeration of all histories up to 8/11 '
         'main-loop choices confirms every reached state lies in the visited set; all operation sequences of length <= 5/6 '
         'run on the bounded hand-off queues.',
         'peer model mirrors nRF51 esb.c safelink as implied by the driver\'s half of the protocol (no firmware source '
         'offline); dongle abstracted at the USB endpoint; data independence (ids modulo 4); virtual clock; start-up probes '
         'do not count towards the retry limit; one genuine defect (half-open safelink) is a known finding',
         'DESIGN.md §3 C01', 'E2'),
}

ALL = ['C%02d' % i for i in range(1, 21)]
NOT_YET = 'check not built yet in this revision (planned, see DESIGN.md §3); not claimed'


def main():
    checks = []
    for pid in ALL:
        if pid not in CHECKS:
            continue
        level, tech, text, note, ref, engine = CHECKS[pid]
        checks.append({
            'property_id': pid,
            'quick_cmd': '%s %s --tier quick' % (PY, pid),
            'thorough_cmd': '%s %s --tier thorough' % (PY, pid),
            'evidence_file': '/verif/evidence/%s.json' % pid,
            'replay_cmd_template': '%s %s --replay {path}' % (PY, pid),
            'engine': engine,
            'level_claimed': {'category': level, 'text': text, 'design_ref': ref},
            'level_note': note,
            'technique': tech,
        })
    man = {
        'version': 1,
        'setup_cmd': 'cd /verif && /venv/bin/python -m vf.selftest',
        'hooks': {
            'guard': 'CFLIB_VERIF',
            'enable': 'no source hooks: the checks rebind threading/time/queue primitives inside the imported '
                      'cflib modules at run time (vf/vsched.py) and install a simulated link driver through the '
                      'public cflib.crtp.CLASSES list; CFLIB_VERIF is reserved and unused',
            'baseline_off_cmd': BASELINE,
            'source_commits': [],
            'add_only': True,
        },
        'engines': [
            {'name': 'enumeration', 'path': 'vf/core.py',
             'serves_properties': [p for p in CHECKS if CHECKS[p][5] == 'enumeration'],
             'kind_free_text': 'exhaustive enumeration of a finite input/fault alphabet on the real code, '
                               'forked over 16 workers'},
            {'name': 'E1-choice-tree', 'path': 'vf/explore.py',
             'serves_properties': [p for p in CHECKS if CHECKS[p][5] == 'E1'],
             'kind_free_text': 'stateless deviation-bounded exploration of the implementation (every '
                               'environment answer / schedule up to a deviation bound), replay by choice vector'},
            {'name': 'E2-state-search', 'path': 'vf/explore.py',
             'serves_properties': [p for p in CHECKS if CHECKS[p][5] == 'E2'],
             'kind_free_text': 'explicit-state BFS over the real transition functions by history replay with '
                               'canonical state hashing'},
            {'name': 'E3-controlled-threads', 'path': 'vf/vsched.py',
             'serves_properties': [p for p in CHECKS if CHECKS[p][5] == 'E3'],
             'kind_free_text': 'cooperative scheduler for real cflib threads with virtual time; schedules '
                               'enumerated by E1 up to a delay bound'},
        ],
        'checks': checks,
        'not_applicable': [{'property_id': p, 'reason': NOT_YET} for p in ALL if p not in CHECKS],
        'notes': 'All checks run the current /repo working tree (sys.path[0]=$VF_REPO, default /repo). '
                 'Genuine defects: see known_findings.json and DESIGN.md.',
    }
    with open(os.path.join(VERIF, 'MANIFEST.json'), 'w') as f:
        json.dump(man, f, indent=1)
        f.write('\n')


if __name__ == '__main__':
    main()
