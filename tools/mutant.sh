#!/bin/bash
# usage: tools/mutant.sh <patch.diff> <PROPERTY-ID> [tier]   — run a check against a scratch copy of /repo with the patch applied
set -u
diff=$(readlink -f "$1"); pid=$2; tier=${3:-quick}
d=$(mktemp -d /tmp/mut_${pid}_XXXX)
cp -r /repo/cflib /repo/lpslib "$d/"
if ! (cd "$d" && patch -s -p1 < "$diff"); then echo "PATCH-FAILED $diff"; rm -rf "$d"; exit 3; fi
find "$d" -name __pycache__ -prune -exec rm -rf {} + 2>/dev/null
cd /verif
cp evidence/$pid.json /tmp/ev_$pid.$$.json 2>/dev/null
VF_REPO="$d" PYTHONHASHSEED=0 /venv/bin/python -m vf.run "$pid" --tier "$tier" > "$d/out.txt" 2>&1
rc=$?
grep -E "^VIOLATION|^KNOWN|^HARNESS|signature:" "$d/out.txt" | head -${MUT_LINES:-6}
tail -1 "$d/out.txt" | cut -c1-200
echo "MUTANT $(basename "$diff") on $pid/$tier -> exit $rc"
cp /tmp/ev_$pid.$$.json evidence/$pid.json 2>/dev/null; rm -f /tmp/ev_$pid.$$.json
rm -rf "$d"
exit 0
